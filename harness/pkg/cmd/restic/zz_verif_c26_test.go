package main

import (
	"context"
	"fmt"
	"math/rand"
	"path/filepath"
	"sort"
	"testing"

	"github.com/restic/restic/internal/backend"
	"github.com/restic/restic/internal/data"
	"github.com/restic/restic/internal/filter"
	"github.com/restic/restic/internal/global"
	"github.com/restic/restic/internal/restic"
	kit "github.com/restic/restic/internal/verifkit"
)

// vSnapInfo is what the oracle needs to know about a snapshot file.
type vSnapInfo struct {
	ID       string
	Tree     string
	Original string
	Tags     []string
	Host     string
}

// vLoadSnaps reads all snapshots of a storage state with the real code.
func vLoadSnaps(t testing.TB, files map[backend.Handle][]byte) (map[string]vSnapInfo, error) {
	st := kit.NewStoreFrom(files)
	e := newVEnv(t, st)
	repo, err := e.open()
	if err != nil {
		return nil, err
	}
	res := map[string]vSnapInfo{}
	for _, id := range st.Names(backend.SnapshotFile) {
		rid, _ := restic.ParseID(id)
		sn, err := data.LoadSnapshot(context.Background(), repo, rid)
		if err != nil {
			return nil, fmt.Errorf("snapshot %s: %w", id[:8], err)
		}
		si := vSnapInfo{ID: id, Tags: sn.Tags, Host: sn.Hostname}
		if sn.Tree != nil {
			si.Tree = sn.Tree.String()
		}
		if sn.Original != nil {
			si.Original = sn.Original.String()
		}
		res[id] = si
	}
	return res, nil
}

type vRewriteOp struct {
	Kind string // tag-add tag-remove tag-set rewrite-exclude rewrite-exclude-forget rewrite-host rewrite-host-forget rewrite-nomatch repair-forget
	Arg  string
}

func (o vRewriteOp) cmd() string {
	switch o.Kind[:3] {
	case "tag":
		return "tag"
	case "rew":
		return "rewrite"
	}
	return "repair-snapshots"
}

func (e *vEnv) rewriteOp(o vRewriteOp, ids []string, ctxWrap func(ctx context.Context) (context.Context, func())) error {
	return e.run(o.cmd(), nil, func(ctx context.Context, gopts global.Options) error {
		if ctxWrap != nil {
			var c func()
			ctx, c = ctxWrap(ctx)
			defer c()
		}
		switch o.Kind {
		case "tag-add":
			return runTag(ctx, TagOptions{AddTags: data.TagLists{data.TagList{o.Arg}}}, gopts, gopts.Term, ids)
		case "tag-remove":
			return runTag(ctx, TagOptions{RemoveTags: data.TagLists{data.TagList{o.Arg}}}, gopts, gopts.Term, ids)
		case "tag-set":
			return runTag(ctx, TagOptions{SetTags: data.TagLists{data.TagList{o.Arg, "z"}}}, gopts, gopts.Term, ids)
		case "rewrite-exclude", "rewrite-exclude-forget", "rewrite-nomatch":
			return runRewrite(ctx, RewriteOptions{Forget: o.Kind == "rewrite-exclude-forget",
				ExcludePatternOptions: filter.ExcludePatternOptions{Excludes: []string{o.Arg}}}, gopts, ids, gopts.Term)
		case "rewrite-host", "rewrite-host-forget":
			return runRewrite(ctx, RewriteOptions{Forget: o.Kind == "rewrite-host-forget",
				Metadata: snapshotMetadataArgs{Hostname: o.Arg}}, gopts, ids, gopts.Term)
		case "repair-forget":
			return runRepairSnapshots(ctx, gopts, RepairOptions{Forget: true}, ids, gopts.Term)
		case "repair-forget-all":
			// no snapshot named: every snapshot of the repository is looked at
			return runRepairSnapshots(ctx, gopts, RepairOptions{Forget: true}, nil, gopts.Term)
		}
		return fmt.Errorf("unknown op %v", o)
	})
}

func vGenRewriteOps(r *rand.Rand, n int) []vRewriteOp {
	kinds := []vRewriteOp{{"tag-add", "x"}, {"tag-add", "y"}, {"tag-remove", "x"}, {"tag-set", "w"},
		{"rewrite-exclude", "f1"}, {"rewrite-exclude-forget", "f2"}, {"rewrite-exclude-forget", "a"},
		{"rewrite-host", "newhost"}, {"rewrite-host-forget", "otherhost"}, {"rewrite-nomatch", "no-such-name-zz"},
		{"repair-forget", ""}, {"rewrite-exclude-forget", "f3"}, {"rewrite-exclude-forget", "c"}, {"repair-forget-all", ""}, {"repair-forget-all", ""}}
	var ops []vRewriteOp
	for i := 0; i < n; i++ {
		ops = append(ops, kinds[r.Intn(len(kinds))])
	}
	return ops
}

// lineage bookkeeping: first[id] = first snapshot id of the lineage of id
type vLineage struct {
	first map[string]string
}

// vCheckLineages: every lineage of `before` is still represented in `after`
func vLineageFails(before, after map[string]vSnapInfo, first map[string]string) []string {
	var fails []string
	alive := map[string]bool{}
	for id, si := range after {
		f, ok := first[id]
		if !ok {
			// new snapshot: lineage through Original
			f = si.Original
			if f2, ok2 := first[si.Original]; ok2 {
				f = f2
			}
		}
		alive[f] = true
	}
	for id := range before {
		if !alive[first[id]] {
			fails = append(fails, fmt.Sprintf("snapshot lineage of %s lost (neither old nor new snapshot present)", first[id][:8]))
		}
	}
	sort.Strings(fails)
	return fails
}

func TestVerif_C26(t *testing.T) {
	res := kit.NewResult("one case = one (history, rewrite-like command, fault) triple with fault in {crash after op k (every prefix), Save/Remove error at op k, die at op k}; judged on the real storage: some snapshot of every lineage exists at every prefix, Original/tree relations of the new snapshot; distinct by (history seed, step, fault, k)")
	tr := kit.NewNDJSON("trace.ndjson")
	defer tr.Close()
	nh := kit.Pick(6, 80)
	nops := kit.Pick(4, 8)
	for hi := 0; hi < nh; hi++ {
		seed := kit.Seed()*100000 + 2600 + int64(hi)
		r := rand.New(rand.NewSource(seed))
		e := newVEnv(t, nil)
		if err := e.init([]string{"2", "1"}[r.Intn(2)]); err != nil {
			res.Problem("history %d init: %v", seed, err)
			continue
		}
		src := filepath.Join(e.base, "src")
		nsnap := 1 + r.Intn(3)
		ok := true
		for i := 0; i < nsnap; i++ {
			vWriteTree(t, src, vGenFiles(r, 3+r.Intn(4), 8, false))
			if err := e.backup(src, []string{"."}, BackupOptions{}); err != nil {
				res.Problem("history %d backup: %v", seed, err)
				ok = false
			}
		}
		if !ok {
			continue
		}
		first := map[string]string{}
		for _, id := range e.snapshotIDs() {
			first[id] = id
		}
		ops := vGenRewriteOps(r, nops)
		// every history ends with a repair over all snapshots while one healthy snapshot file cannot be loaded
		ops = append(ops, vRewriteOp{"repair-forget-all", "!"})
		for step, o := range ops {
			ids := e.snapshotIDs()
			before, err := vLoadSnaps(t, e.store.Files())
			if err != nil {
				res.Problem("history %d: load snaps: %v", seed, err)
				break
			}
			if len(ids) == 0 {
				res.Problem("history %d step %d: no snapshot left before %v (previous ops %v)", seed, step, o, ops[:step])
				break
			}
			target := ids[r.Intn(len(ids))]
			// fault choice for this step
			fk := []string{"none", "none", "fail", "die", "fail-after-effect", "loadfail"}[r.Intn(6)]
			if o.Kind == "repair-forget-all" && (r.Intn(2) == 0 || o.Arg == "!") {
				fk = "loadfail"
			}
			if o.Kind == "repair-forget" && fk == "loadfail" {
				// `repair snapshots --forget <id>` removes a snapshot file it was given by name and cannot load:
				// that is its documented job, not a loss
				fk = "none"
			}
			k := 1 + r.Intn(4)
			base := e.store.NumMut()
			startSeq := e.store.NumOps()
			var wrap func(ctx context.Context) (context.Context, func())
			switch fk {
			case "fail":
				e.store.Fault = kit.FailAt(base+k, false)
			case "fail-after-effect":
				e.store.Fault = kit.FailAt(base+k, true)
			case "loadfail":
				// the backend cannot deliver one healthy snapshot file for the duration of the command
				tname := target
				e.store.ReadFault = func(proc string, h backend.Handle, length int, off int64, d []byte) ([]byte, error) {
					if h.Type == backend.SnapshotFile && h.Name == tname {
						return nil, fmt.Errorf("%w (load of snapshot %.8s)", kit.ErrInjected, tname)
					}
					return d, nil
				}
			case "die":
				e.store.DieAt = base + k
				wrap = func(ctx context.Context) (context.Context, func()) {
					c, cancel := context.WithCancel(ctx)
					e.store.OnDead = cancel
					return c, cancel
				}
			}
			cerr := e.rewriteOp(o, []string{target}, wrap)
			e.store.Revive()
			e.store.ReadFault = nil
			for _, n := range e.store.Names(backend.LockFile) {
				e.store.Del(backend.Handle{Type: backend.LockFile, Name: n})
			}
			allOps := e.store.Ops()
			// every prefix of this command
			var fails []string
			for _, op := range allOps[startSeq:] {
				if !(op.Kind == "Save" || op.Kind == "Remove") || op.H.Type != backend.SnapshotFile {
					continue
				}
				files := kit.StateAt(map[backend.Handle][]byte{}, allOps, op.Seq)
				after, err := vLoadSnaps(t, files)
				if err != nil {
					fails = append(fails, fmt.Sprintf("after op %d: %v", op.Seq, err))
					continue
				}
				for _, f := range vLineageFails(before, after, first) {
					fails = append(fails, fmt.Sprintf("after op %d (%s %s): %s", op.Seq, op.Kind, op.H.Name[:8], f))
				}
				res.Case(fmt.Sprintf("%d/%d/%s/%d@%d", seed, step, o.Kind, k, op.Seq), true)
			}
			after, err := vLoadSnaps(t, e.store.Files())
			if err != nil {
				res.Problem("history %d: load snaps after: %v", seed, err)
				break
			}
			// field relations of new snapshots
			for id, si := range after {
				if _, old := before[id]; old {
					continue
				}
				tgt := before[target]
				switch o.cmd() {
				case "tag":
					// tag keeps the Original the snapshot already carries (set by an earlier tag / rewrite),
					// otherwise records the id of the snapshot it replaces
					wantOrig := tgt.Original
					if wantOrig == "" {
						wantOrig = target
					}
					if si.Original != wantOrig {
						fails = append(fails, fmt.Sprintf("tag: new snapshot %s has original %.8s, want %.8s", id[:8], si.Original, wantOrig))
					}
					if si.Tree != tgt.Tree {
						fails = append(fails, fmt.Sprintf("tag: new snapshot %s changed the tree", id[:8]))
					}
				default:
					if si.Original != target && si.Original != first[target] {
						fails = append(fails, fmt.Sprintf("%s: new snapshot %s has original %.8s, want %.8s (replaced) or %.8s (first)", o.cmd(), id[:8], si.Original, target, first[target]))
					}
					if (o.Kind == "rewrite-host" || o.Kind == "rewrite-host-forget" || o.Kind == "rewrite-nomatch") && si.Tree != tgt.Tree {
						fails = append(fails, fmt.Sprintf("%s: new snapshot %s changed the tree although no filter matched", o.Kind, id[:8]))
					}
				}
				first[id] = first[target]
			}
			if cerr == nil && fk == "none" {
				// complete run: for tag and --forget variants the old snapshot is replaced (if anything changed)
				if len(after) < len(before) {
					fails = append(fails, fmt.Sprintf("%s reduced the number of snapshots from %d to %d", o.Kind, len(before), len(after)))
				}
			}
			res.Count("cmd_"+o.cmd(), 1)
			res.Count("fault_"+fk, 1)
			if len(fails) > 0 {
				res.Violate(fmt.Sprintf("%s/%s/%s", o.cmd(), fk, vRewriteClass(fails[0])), fmt.Sprintf("history %d step %d %v on %.8s fault %s@%d: %v", seed, step, o, target, fk, k, fails), map[string]any{"history": seed, "step": step})
			}
			if step == 0 {
				res.Sample(map[string]any{"history": seed, "snapshots": nsnap, "ops": ops})
			}
		}
		tr.Write(kit.Ev{"ev": "Reset", "proc": "env", "history": seed})
		vWriteTrace(tr, e.trace(false))
	}
	res.Save("")
}

func vRewriteClass(f string) string {
	switch {
	case contains(f, "lineage"):
		return "snapshot-lost"
	case contains(f, "original"):
		return "wrong-original"
	case contains(f, "tree"):
		return "tree-changed"
	case contains(f, "reduced"):
		return "snapshot-count"
	}
	return "other"
}

func contains(s, sub string) bool {
	for i := 0; i+len(sub) <= len(s); i++ {
		if s[i:i+len(sub)] == sub {
			return true
		}
	}
	return false
}
