package main

// C20 driver: real `restic restore` with include / exclude pattern sets (case-sensitive and
// case-insensitive, negations) and --delete into targets with pre-existing entries; one record per
// restore, judged by spec/Fn_Select.tla (RestoreOK) on top of the pattern model Fn_Glob.tla.

import (
	"context"
	"fmt"
	"math/rand"
	"os"
	"path/filepath"
	"sort"
	"strings"
	"syscall"
	"testing"
	"time"

	"github.com/restic/restic/internal/global"
	kit "github.com/restic/restic/internal/verifkit"
)

// vSelPat is a pattern in the structured form the specs use.
type vSelPat struct {
	Neg   bool     `json:"neg"`
	Abs   bool     `json:"abs"`
	Parts []string `json:"parts"`
}

func vSelParse(s string) vSelPat {
	p := vSelPat{Parts: []string{}}
	if strings.HasPrefix(s, "!") {
		p.Neg = true
		s = s[1:]
	}
	if strings.HasPrefix(s, "/") {
		p.Abs = true
		s = s[1:]
	}
	if s != "" {
		p.Parts = strings.Split(s, "/")
	}
	return p
}

func (p vSelPat) raw() string {
	s := strings.Join(p.Parts, "/")
	if p.Abs {
		s = "/" + s
	}
	if p.Neg {
		s = "!" + s
	}
	return s
}

type vSelPath struct {
	Abs   bool     `json:"abs"`
	Comps []string `json:"comps"`
}

func vSelPathOf(rel string) vSelPath {
	return vSelPath{Abs: true, Comps: strings.Split(filepath.ToSlash(rel), "/")}
}

// vSel is a pattern set.
type vSel struct {
	Mode  string    `json:"mode"` // include | exclude | none
	Pats  []vSelPat `json:"pats"`
	IPats []vSelPat `json:"ipats"`
}

func (s vSel) raws() (pats, ipats []string) {
	for _, p := range s.Pats {
		pats = append(pats, p.raw())
	}
	for _, p := range s.IPats {
		ipats = append(ipats, p.raw())
	}
	return
}

func (s vSel) String() string {
	a, b := s.raws()
	return fmt.Sprintf("%s %v i%v", s.Mode, a, b)
}

// vEntry is one entry of a generated tree: path relative to the root, type file|dir|symlink.
type vEntry struct {
	Path string
	Type string
}

// vGenTree draws a tree of depth <= 3 over a small alphabet of names (upper/lower case variants included).
func vGenTree(r *rand.Rand, names []string, maxDepth int) []vEntry {
	var res []vEntry
	var gen func(prefix string, depth int, n int)
	gen = func(prefix string, depth int, n int) {
		perm := r.Perm(len(names))
		for i := 0; i < n && i < len(names); i++ {
			name := names[perm[i]]
			p := name
			if prefix != "" {
				p = prefix + "/" + name
			}
			x := r.Intn(10)
			switch {
			case x < 5 && depth < maxDepth:
				res = append(res, vEntry{p, "dir"})
				gen(p, depth+1, r.Intn(4)) // may stay empty
			case x == 9:
				res = append(res, vEntry{p, "symlink"})
			default:
				res = append(res, vEntry{p, "file"})
			}
		}
	}
	gen("", 1, 2+r.Intn(3))
	sort.Slice(res, func(i, j int) bool { return res[i].Path < res[j].Path })
	return res
}

// vMaterialise writes entries below dir; content is tag+path so that two materialisations differ.
func vMaterialise(t testing.TB, dir string, entries []vEntry, tag string) {
	if err := os.MkdirAll(dir, 0o755); err != nil {
		t.Fatal(err)
	}
	for _, e := range entries {
		p := filepath.Join(dir, filepath.FromSlash(e.Path))
		var err error
		switch e.Type {
		case "dir":
			err = os.MkdirAll(p, 0o755)
		case "symlink":
			_ = os.MkdirAll(filepath.Dir(p), 0o755)
			err = os.Symlink(tag+"-target-"+strings.ReplaceAll(e.Path, "/", "_"), p)
		default:
			_ = os.MkdirAll(filepath.Dir(p), 0o755)
			err = os.WriteFile(p, []byte(tag+":"+e.Path+"\n"), 0o644)
		}
		if err != nil {
			t.Fatal(err)
		}
	}
}

// vScan lists the entries below dir with their content (files: bytes, symlinks: target).
func vScan(t testing.TB, dir string) map[string][2]string {
	res := map[string][2]string{}
	err := filepath.Walk(dir, func(p string, fi os.FileInfo, err error) error {
		if err != nil {
			return err
		}
		if p == dir {
			return nil
		}
		rel, _ := filepath.Rel(dir, p)
		rel = filepath.ToSlash(rel)
		switch {
		case fi.IsDir():
			res[rel] = [2]string{"dir", ""}
		case fi.Mode()&os.ModeNamedPipe != 0:
			res[rel] = [2]string{"fifo", ""}
		case fi.Mode()&os.ModeSocket != 0:
			res[rel] = [2]string{"socket", ""}
		case fi.Mode()&os.ModeCharDevice != 0:
			res[rel] = [2]string{"chardev", ""}
		case fi.Mode()&os.ModeDevice != 0:
			res[rel] = [2]string{"dev", ""}
		case fi.Mode()&os.ModeSymlink != 0:
			tg, _ := os.Readlink(p)
			res[rel] = [2]string{"symlink", tg}
		default:
			b, err := os.ReadFile(p)
			if err != nil {
				return err
			}
			res[rel] = [2]string{"file", string(b)}
		}
		return nil
	})
	if err != nil {
		t.Fatal(err)
	}
	return res
}

func (e *vEnv) restore(opts RestoreOptions, id string) error {
	return e.run("restore", nil, func(ctx context.Context, gopts global.Options) error {
		return runRestore(ctx, opts, gopts, gopts.Term, []string{id})
	})
}

// vBackupTree writes the tree to a fresh directory and backs it up as "." so that snapshot paths are /<entry path>.
func vBackupTree(t testing.TB, e *vEnv, entries []vEntry, n int) string {
	src := filepath.Join(e.base, fmt.Sprintf("src%d", n))
	vMaterialise(t, src, entries, "snap")
	before := map[string]bool{}
	for _, id := range e.snapshotIDs() {
		before[id] = true
	}
	if err := e.backup(src, []string{"."}, BackupOptions{}); err != nil {
		t.Fatalf("backup: %v", err)
	}
	for _, id := range e.snapshotIDs() {
		if !before[id] {
			return id
		}
	}
	t.Fatal("no new snapshot")
	return ""
}

var vSelPool = []string{"a", "b", "ab", "A", "c", "*", "a*", "?", "[ab]", "[^a]", "/a", "/b", "/ab", "/A", "/c", "/a/b", "/a/a", "/a/c", "/b/a", "/a/*", "/*/a", "/*/b",
	"a/b", "*/b", "b/*", "**/b", "**/a", "/a/**", "/**/b", "/a/**/b", "/**/a/**", "/*", "/*/*", "/a/b/a", "/a/*/b", "a/b/a", "/**/ab", "/ab/**/a", "/?", "/a*/b"}
var vSelNegPool = []string{"!a", "!b", "!/a/b", "!/a/a", "!*/b", "!**/b", "!/a/**", "!/ab", "!/a/*/b", "!A"}
var vSelFoldPool = []string{"A", "/A", "Ab", "/a/B", "*B", "A*", "**/B", "/A/**", "AB", "/aB"}

func vSelPats(ss ...string) []vSelPat {
	res := []vSelPat{}
	for _, s := range ss {
		res = append(res, vSelParse(s))
	}
	return res
}

// vDrawSel draws a pattern set: 1-2 case-sensitive patterns (the later ones possibly negated) and/or a
// case-insensitive one.
func vDrawSel(r *rand.Rand, mode string) vSel {
	s := vSel{Mode: mode, Pats: []vSelPat{}, IPats: []vSelPat{}}
	x := r.Intn(20)
	switch {
	case x < 8:
		s.Pats = vSelPats(vSelPool[r.Intn(len(vSelPool))])
	case x < 12:
		s.Pats = vSelPats(vSelPool[r.Intn(len(vSelPool))], vSelPool[r.Intn(len(vSelPool))])
	case x < 14:
		s.Pats = vSelPats(vSelPool[r.Intn(len(vSelPool))], vSelNegPool[r.Intn(len(vSelNegPool))])
	case x < 15:
		s.Pats = vSelPats(vSelPool[r.Intn(len(vSelPool))], vSelNegPool[r.Intn(len(vSelNegPool))], vSelPool[r.Intn(len(vSelPool))])
	case x < 17:
		s.IPats = vSelPats(vSelFoldPool[r.Intn(len(vSelFoldPool))])
	default:
		s.Pats = vSelPats(vSelPool[r.Intn(len(vSelPool))])
		s.IPats = vSelPats(vSelFoldPool[r.Intn(len(vSelFoldPool))])
	}
	return s
}

// vDrawPre draws pre-existing target entries: copies of snapshot entries (same type, other content) and
// entries that are not part of the snapshot (files, directories with content) at every depth.
func vDrawPre(r *rand.Rand, snap []vEntry, names []string) []vEntry {
	in := map[string]string{}
	for _, e := range snap {
		in[e.Path] = e.Type
	}
	pre := map[string]string{}
	addParents := func(p string) bool {
		parts := strings.Split(p, "/")
		for i := 1; i < len(parts); i++ {
			d := strings.Join(parts[:i], "/")
			if t, ok := in[d]; ok && t != "dir" {
				return false
			}
			if t, ok := pre[d]; ok && t != "dir" {
				return false
			}
		}
		for i := 1; i < len(parts); i++ {
			pre[strings.Join(parts[:i], "/")] = "dir"
		}
		return true
	}
	for _, e := range snap {
		if r.Intn(3) == 0 && addParents(e.Path) {
			pre[e.Path] = e.Type
		}
	}
	dirs := []string{""}
	for _, e := range snap {
		if e.Type == "dir" {
			dirs = append(dirs, e.Path)
		}
	}
	extra := append(append([]string{}, names...), "c")
	for i := 0; i < 1+r.Intn(4); i++ {
		d := dirs[r.Intn(len(dirs))]
		p := extra[r.Intn(len(extra))]
		if d != "" {
			p = d + "/" + p
		}
		if _, ok := in[p]; ok {
			continue
		}
		if _, ok := pre[p]; ok {
			continue
		}
		if len(strings.Split(p, "/")) > 3 || !addParents(p) {
			continue
		}
		if r.Intn(3) == 0 && len(strings.Split(p, "/")) < 3 {
			pre[p] = "dir"
			for j := 0; j < r.Intn(3); j++ {
				c := p + "/" + extra[r.Intn(len(extra))]
				if _, ok := pre[c]; !ok {
					pre[c] = "file"
				}
			}
		} else {
			pre[p] = "file"
		}
	}
	var res []vEntry
	for p, t := range pre {
		res = append(res, vEntry{p, t})
	}
	sort.Slice(res, func(i, j int) bool { return res[i].Path < res[j].Path })
	return res
}

type vC20Ent struct {
	P vSelPath `json:"p"`
	T string   `json:"t"`
	C string   `json:"c,omitempty"`
}

func TestVerif_C20(t *testing.T) {
	res := kit.NewResult("one case = one real `restic restore` of a generated snapshot tree (depth <= 3 over names {a,b,ab,A,Ab}: files, empty and nested directories, symlinks; hand-built trees additionally with sockets, fifos and device nodes at every depth) with a pattern set (include or exclude; 1-3 patterns from a pool of 40 globs incl. '**', absolute/relative, negations; case-insensitive patterns) into a target with generated pre-existing entries, with and without --delete; distinct by (tree, pattern set, delete, pre-existing entries); non-trivial when the pattern set selects some but not all entries of the tree")
	recs := kit.NewNDJSON("recs.ndjson")
	defer recs.Close()
	rnd := kit.Rand(20)
	e := newVEnv(t, nil)
	if err := e.init("2"); err != nil {
		t.Fatal(err)
	}
	names := []string{"a", "b", "ab", "A", "Ab"}
	nTrees := kit.Pick(8, 30)
	perTree := kit.Pick(64, 200)
	type tree struct {
		entries []vEntry
		id      string
	}
	var trees []tree
	for i := 0; i < nTrees; i++ {
		var en []vEntry
		for len(en) < 3 {
			en = vGenTree(rnd, names, 3)
		}
		trees = append(trees, tree{en, vBackupTree(t, e, en, i)})
	}
	n := 0
	runOne := func(ti int, id string, snapEnts []vC20Ent, snapContent map[string][2]string, files int, sel vSel, del bool, pre []vEntry) {
		n++
		tgt := filepath.Join(e.base, fmt.Sprintf("tgt%d", n))
		vMaterialise(t, tgt, pre, "pre")
		preContent := vScan(t, tgt)

		opts := RestoreOptions{Target: tgt, Delete: del}
		p, ip := sel.raws()
		if sel.Mode == "include" {
			opts.Includes, opts.InsensitiveIncludes = p, ip
		} else if sel.Mode == "exclude" {
			opts.Excludes, opts.InsensitiveExcludes = p, ip
		}
		err := e.restore(opts, id)
		after := vScan(t, tgt)
		_ = os.RemoveAll(tgt)

		rec := map[string]any{"op": "restore", "sel": sel, "delete": del, "snap": snapEnts, "err": err != nil, "tree": ti}
		if err != nil {
			rec["errmsg"] = err.Error()
		}
		preEnts := []vC20Ent{}
		for _, en := range pre {
			preEnts = append(preEnts, vC20Ent{P: vSelPathOf(en.Path), T: en.Type})
		}
		rec["pre"] = preEnts
		afterEnts := []vC20Ent{}
		var keys []string
		for k := range after {
			keys = append(keys, k)
		}
		sort.Strings(keys)
		for _, k := range keys {
			a := after[k]
			c := "other"
			switch {
			case a[0] == "dir":
				c = "dir"
			case snapContent[k] == a:
				c = "snap"
			case preContent[k] == a:
				c = "pre"
			}
			afterEnts = append(afterEnts, vC20Ent{P: vSelPathOf(k), T: a[0], C: c})
		}
		rec["after"] = afterEnts
		recs.Write(rec)
		restored := 0
		for _, a := range afterEnts {
			if a.C == "snap" {
				restored++
			}
		}
		res.Case(fmt.Sprintf("%d|%s|%v|%v", ti, sel, del, pre), restored > 0 && restored < files)
		res.Count("restores_"+sel.Mode, 1)
		if del {
			res.Count("restores_with_delete", 1)
			res.Count("preexisting_entries_removed", len(preContent)-vCountKept(preContent, after))
		}
		if n == 5 {
			res.Sample(rec)
		}
	}
	for ti, tr := range trees {
		snapContent := vScan(t, filepath.Join(e.base, fmt.Sprintf("src%d", ti)))
		var snapEnts []vC20Ent
		for _, en := range tr.entries {
			snapEnts = append(snapEnts, vC20Ent{P: vSelPathOf(en.Path), T: en.Type})
		}
		files := 0
		for _, en := range tr.entries {
			if en.Type != "dir" {
				files++
			}
		}
		for k := 0; k < perTree; k++ {
			mode := []string{"include", "exclude"}[k%2]
			var sel vSel
			switch {
			case k < perTree/2:
				// sweep: every single pattern of the pool in both modes (quick: spread over the trees)
				sel = vSel{Mode: mode, Pats: vSelPats(vSelPool[(k/2+ti*(perTree/4))%len(vSelPool)]), IPats: []vSelPat{}}
			case k%29 == 0:
				sel = vSel{Mode: "none", Pats: []vSelPat{}, IPats: []vSelPat{}}
			default:
				sel = vDrawSel(rnd, mode)
			}
			del := k%3 == 0 || sel.Mode == "none"
			var pre []vEntry
			if k%4 != 1 {
				pre = vDrawPre(rnd, tr.entries, names)
			}
			runOne(ti, tr.id, snapEnts, snapContent, files, sel, del, pre)
		}
	}

	// ---- hand-built snapshots that also contain node types restore does not create (sockets, as old
	// snapshots have them) or creates with mknod (fifo, devices), at every depth, with pre-existing
	// target entries of the same name (file / symlink / directory), --delete on and off
	special := []string{"socket", "socket", "fifo"}
	if vCanMknod(t, e.base) {
		special = append(special, "chardev", "dev")
	} else {
		res.Count("mknod_not_permitted_devices_skipped", 1)
	}
	nSpecial := kit.Pick(6, 24)
	perSpecial := kit.Pick(20, 50)
	for si := 0; si < nSpecial; si++ {
		var entries []vEntry
		for len(entries) < 4 {
			entries = vGenTree(rnd, names, 3)
		}
		// turn non-directories into special nodes and add some more below the directories
		var nodes []vBNode
		have := map[string]bool{}
		for _, en := range entries {
			have[en.Path] = true
		}
		nSock := 0
		for i, en := range entries {
			if en.Type != "dir" && (rnd.Intn(3) == 0 || (nSock == 0 && i >= len(entries)/2)) {
				en.Type = special[rnd.Intn(len(special))]
				if en.Type == "socket" {
					nSock++
				}
			}
			nodes = append(nodes, vBNode{Path: en.Path, Type: en.Type, Key: en.Path})
		}
		for _, en := range entries {
			if en.Type == "dir" && strings.Count(en.Path, "/") < 2 && rnd.Intn(2) == 0 {
				p := en.Path + "/" + names[rnd.Intn(len(names))]
				if !have[p] {
					have[p] = true
					nodes = append(nodes, vBNode{Path: p, Type: special[rnd.Intn(len(special))], Key: p})
				}
			}
		}
		if p := names[rnd.Intn(len(names))]; !have[p] {
			have[p] = true
			nodes = append(nodes, vBNode{Path: p, Type: "socket", Key: p})
		}
		sort.Slice(nodes, func(i, j int) bool { return nodes[i].Path < nodes[j].Path })
		id := vBuildSnapshot(t, e, nodes, vBTime.Add(time.Duration(si)*time.Minute))
		snapContent := map[string][2]string{}
		var snapEnts []vC20Ent
		var plain, specials []vEntry
		files := 0
		for _, nd := range nodes {
			snapEnts = append(snapEnts, vC20Ent{P: vSelPathOf(nd.Path), T: nd.Type})
			c := ""
			switch nd.Type {
			case "file":
				c = string(vBContent(nd))
			case "symlink":
				c = "target-" + nd.Key
			}
			snapContent[nd.Path] = [2]string{nd.Type, c}
			if nd.Type != "dir" {
				files++
			}
			if nd.Type == "file" || nd.Type == "dir" || nd.Type == "symlink" {
				plain = append(plain, vEntry{nd.Path, nd.Type})
			} else {
				specials = append(specials, vEntry{nd.Path, nd.Type})
			}
		}
		res.Count("snapshots_with_special_nodes", 1)
		for k := 0; k < perSpecial; k++ {
			mode := []string{"include", "exclude"}[k%2]
			var sel vSel
			switch {
			case k%5 == 0:
				sel = vSel{Mode: "none", Pats: []vSelPat{}, IPats: []vSelPat{}}
			case k%5 == 1:
				sp := specials[rnd.Intn(len(specials))]
				sel = vSel{Mode: mode, Pats: vSelPats("/" + sp.Path), IPats: []vSelPat{}} // exactly one special node
			case k%5 == 2:
				sel = vSel{Mode: mode, Pats: vSelPats(vSelPool[rnd.Intn(len(vSelPool))]), IPats: []vSelPat{}}
			default:
				sel = vDrawSel(rnd, mode)
			}
			del := k%4 != 3
			// pre-existing entries: the usual ones for the plain part of the tree, plus entries with the names of
			// the special nodes (file / symlink / empty directory; below a socket also a directory with content)
			// (vDrawPre sees the special nodes as occupied names, so it puts nothing at or below them)
			pre := vDrawPre(rnd, append(append([]vEntry{}, plain...), specials...), names)
			pm := map[string]string{}
			for _, en := range pre {
				if en.Type == "file" || en.Type == "dir" || en.Type == "symlink" {
					pm[en.Path] = en.Type
				}
			}
			for _, sp := range specials {
				if rnd.Intn(4) == 0 {
					continue
				}
				if _, ok := pm[sp.Path]; ok {
					continue
				}
				ok := true
				parts := strings.Split(sp.Path, "/")
				for i := 1; i < len(parts); i++ {
					if t, in := pm[strings.Join(parts[:i], "/")]; in && t != "dir" {
						ok = false
					}
				}
				if !ok {
					continue
				}
				for i := 1; i < len(parts); i++ {
					pm[strings.Join(parts[:i], "/")] = "dir"
				}
				pt := []string{"file", "file", "symlink", "dir"}[rnd.Intn(4)]
				pm[sp.Path] = pt
				if pt == "dir" && sp.Type == "socket" && len(parts) < 3 && rnd.Intn(2) == 0 {
					pm[sp.Path+"/"+names[rnd.Intn(len(names))]] = "file"
				}
				res.Count("preexisting_entry_named_like_special_node", 1)
			}
			pre = pre[:0]
			for p, t := range pm {
				pre = append(pre, vEntry{p, t})
			}
			sort.Slice(pre, func(i, j int) bool { return pre[i].Path < pre[j].Path })
			runOne(1000+si, id, snapEnts, snapContent, files, sel, del, pre)
		}
	}
	res.Save("")
}

// vCanMknod reports whether device nodes can be created here (root without seccomp filter).
func vCanMknod(t testing.TB, dir string) bool {
	p := filepath.Join(dir, "mknod-probe")
	err := syscall.Mknod(p, syscall.S_IFCHR|0o600, 1<<8|3)
	_ = os.Remove(p)
	return err == nil
}

func vCountKept(pre, after map[string][2]string) int {
	n := 0
	for k := range pre {
		if _, ok := after[k]; ok {
			n++
		}
	}
	return n
}
