package verifkit

import (
	"sync"
	"bytes"
	"crypto/sha256"
	"encoding/hex"
	"encoding/json"
	"fmt"
	"sort"

	"github.com/klauspost/compress/zstd"
	"github.com/restic/restic/internal/backend"
	"github.com/restic/restic/internal/repository/crypto"
	"github.com/restic/restic/internal/repository/pack"
	"github.com/restic/restic/internal/restic"
)

// Ev is one abstract trace event (one ndjson line).
type Ev map[string]any

// Projector maps concrete backend operations to abstract events over short
// tokens. Token numbering is by first appearance, so traces are stable for a
// fixed run.
type Projector struct {
	Key  *crypto.Key
	tok  map[string]string
	cnt  map[string]int
	rev  map[string]string
	seen map[string]bool // tree tokens whose children were emitted
	dec  *zstd.Decoder
	// Nonces seen so far (hex) -> count, for C04
	Nonces map[string]int
	nonceCt map[string]string
	// GlobalNonces: check nonce freshness against every object seen by any projector of this test process
	GlobalNonces bool
	// Markers are plaintext strings that must not appear in stored bytes
	Markers [][]byte
	// BlobPlain keeps plaintext hash checks: token -> name_ok
	BadNames []string
	// Kids maps tree token -> children tokens
	Kids map[string][]string
	// BlobType maps blob token -> "d"/"t"
	BlobType map[string]string
	// Sizes: stored length of each blob entry (token|pack -> length)
	PackLen map[string]int
	// keep plaintext sizes
	PlainLen map[string]int
}

// NewProjector creates a projector for the given master key.
func NewProjector(key *crypto.Key) *Projector {
	dec, err := zstd.NewReader(nil)
	if err != nil {
		panic(err)
	}
	return &Projector{Key: key, tok: map[string]string{}, cnt: map[string]int{}, rev: map[string]string{},
		seen: map[string]bool{}, dec: dec, Nonces: map[string]int{}, Kids: map[string][]string{},
		BlobType: map[string]string{}, PackLen: map[string]int{}, PlainLen: map[string]int{}}
}

// Tok returns the token for an id of the given class (b p i s k l).
func (p *Projector) Tok(class, id string) string {
	k := class + ":" + id
	if t, ok := p.tok[k]; ok {
		return t
	}
	p.cnt[class]++
	t := fmt.Sprintf("%s%d", class, p.cnt[class])
	p.tok[k] = t
	p.rev[t] = id
	return t
}

// ID returns the concrete id for a token.
func (p *Projector) ID(tok string) string { return p.rev[tok] }

// HasTok reports whether the id was seen already.
func (p *Projector) HasTok(class, id string) bool {
	_, ok := p.tok[class+":"+id]
	return ok
}

func sha(d []byte) string {
	h := sha256.Sum256(d)
	return hex.EncodeToString(h[:])
}

var (
	globalNonceMu sync.Mutex
	globalNonceCt = map[string]string{}
)

// noteNonce records the nonce of one encrypted object (ct = the ciphertext sealed under it) and reports
// whether it is fresh: non-zero and never used for a DIFFERENT ciphertext before (storing the very same
// bytes again, e.g. re-uploading a file, is not a reuse).
func (p *Projector) noteNonce(n []byte, ct []byte) bool {
	k := hex.EncodeToString(n)
	fp := sha(ct)
	zero := true
	for _, b := range n {
		if b != 0 {
			zero = false
		}
	}
	if p.nonceCt == nil {
		p.nonceCt = map[string]string{}
	}
	// nonces are random 128-bit values drawn by the process under test: a value seen before for other bytes is a
	// reuse whichever repository (history of this run) it was seen in: drivers that never damage or clone stored
	// bytes themselves (C04) share one registry between all their projectors (GlobalNonces)
	if p.GlobalNonces {
		globalNonceMu.Lock()
		gold, gok := globalNonceCt[k]
		if !gok {
			globalNonceCt[k] = fp
		}
		globalNonceMu.Unlock()
		if gok && gold != fp {
			return false
		}
	}
	if old, ok := p.nonceCt[k]; ok {
		return old == fp && !zero
	}
	p.nonceCt[k] = fp
	p.Nonces[k]++
	return !zero
}

func (p *Projector) leak(d []byte) bool {
	for _, m := range p.Markers {
		if len(m) > 0 && bytes.Contains(d, m) {
			return true
		}
	}
	return false
}

// openUnpacked decrypts (and for v2 decompresses) an unpacked file.
func (p *Projector) openUnpacked(d []byte) (plain []byte, nonceFresh bool, err error) {
	if len(d) < p.Key.NonceSize()+16 {
		return nil, true, fmt.Errorf("too short")
	}
	nonce, ct := d[:p.Key.NonceSize()], d[p.Key.NonceSize():]
	nonceFresh = p.noteNonce(nonce, ct)
	plain, err = p.Key.Open(nil, nonce, ct, nil)
	if err != nil {
		return nil, nonceFresh, err
	}
	if len(plain) > 0 && plain[0] != '{' && plain[0] != '[' {
		if plain[0] != 2 {
			return nil, nonceFresh, fmt.Errorf("unknown encoding %d", plain[0])
		}
		plain, err = p.dec.DecodeAll(plain[1:], nil)
	}
	return plain, nonceFresh, err
}

// PackBlobInfo describes one decoded blob of a pack file.
type PackBlobInfo struct {
	Tok    string
	ID     string
	Type   string
	Offset uint
	Length uint
	ULen   uint
	Plain  []byte
	OK     bool // decrypts and hash matches
	Nonce  bool
}

// DecodePack lists a pack and decrypts every blob.
func (p *Projector) DecodePack(d []byte, withPlain bool) ([]PackBlobInfo, bool, error) {
	blobs, _, err := pack.List(p.Key, bytes.NewReader(d), int64(len(d)))
	if err != nil {
		return nil, true, err
	}
	fresh := true
	// header nonce
	// header = last 4 bytes length; header ciphertext precedes it
	if len(d) >= 4 {
		hl := int(uint32(d[len(d)-4]) | uint32(d[len(d)-3])<<8 | uint32(d[len(d)-2])<<16 | uint32(d[len(d)-1])<<24)
		if hl > 0 && hl+4 <= len(d) {
			if !p.noteNonce(d[len(d)-4-hl:len(d)-4-hl+p.Key.NonceSize()], d[len(d)-4-hl+p.Key.NonceSize():len(d)-4]) {
				fresh = false
			}
		}
	}
	sort.Slice(blobs, func(i, j int) bool { return blobs[i].Offset < blobs[j].Offset })
	var res []PackBlobInfo
	for _, b := range blobs {
		bi := PackBlobInfo{ID: b.ID.String(), Offset: b.Offset, Length: b.Length, ULen: b.UncompressedLength}
		bi.Tok = p.Tok("b", bi.ID)
		bi.Type = "d"
		if b.Type == restic.TreeBlob {
			bi.Type = "t"
		}
		p.BlobType[bi.Tok] = bi.Type
		if int(b.Offset+b.Length) <= len(d) && int(b.Length) >= p.Key.NonceSize()+16 {
			raw := d[b.Offset : b.Offset+b.Length]
			nonce, ct := raw[:p.Key.NonceSize()], raw[p.Key.NonceSize():]
			bi.Nonce = p.noteNonce(nonce, ct)
			if !bi.Nonce {
				fresh = false
			}
			plain, err := p.Key.Open(nil, nonce, ct, nil)
			if err == nil && b.UncompressedLength != 0 {
				plain, err = p.dec.DecodeAll(plain, nil)
				if err == nil && uint(len(plain)) != b.UncompressedLength {
					err = fmt.Errorf("ulen mismatch")
				}
			}
			if err == nil && sha(plain) == bi.ID {
				bi.OK = true
				p.PlainLen[bi.Tok] = len(plain)
				if bi.Type == "t" {
					p.noteTree(bi.Tok, plain)
				}
				if withPlain {
					bi.Plain = plain
				}
			}
		}
		res = append(res, bi)
	}
	return res, fresh, nil
}

type treeJSON struct {
	Nodes []struct {
		Name    string   `json:"name"`
		Type    string   `json:"type"`
		Content []string `json:"content"`
		Subtree *string  `json:"subtree"`
	} `json:"nodes"`
}

func (p *Projector) noteTree(tok string, plain []byte) {
	if _, ok := p.Kids[tok]; ok {
		return
	}
	var t treeJSON
	if err := json.Unmarshal(plain, &t); err != nil {
		p.Kids[tok] = []string{}
		return
	}
	set := map[string]bool{}
	for _, n := range t.Nodes {
		for _, c := range n.Content {
			ct := p.Tok("b", c)
			if _, ok := p.BlobType[ct]; !ok {
				p.BlobType[ct] = "d"
			}
			set[ct] = true
		}
		if n.Subtree != nil {
			st := p.Tok("b", *n.Subtree)
			p.BlobType[st] = "t"
			set[st] = true
		}
	}
	kids := make([]string, 0, len(set))
	for k := range set {
		kids = append(kids, k)
	}
	sortToks(kids)
	p.Kids[tok] = kids
}

func sortToks(s []string) {
	sort.Slice(s, func(i, j int) bool {
		if len(s[i]) != len(s[j]) {
			return len(s[i]) < len(s[j])
		}
		return s[i] < s[j]
	})
}

type indexJSON struct {
	Packs []struct {
		ID    string `json:"id"`
		Blobs []struct {
			ID     string `json:"id"`
			Type   string `json:"type"`
			Offset uint   `json:"offset"`
			Length uint   `json:"length"`
			ULen   uint   `json:"uncompressed_length"`
		} `json:"blobs"`
	} `json:"packs"`
}

type snapJSON struct {
	Time     string   `json:"time"`
	Parent   *string  `json:"parent"`
	Tree     *string  `json:"tree"`
	Paths    []string `json:"paths"`
	Hostname string   `json:"hostname"`
	Tags     []string `json:"tags"`
	Original *string  `json:"original"`
}

func fileClass(t backend.FileType) string {
	switch t {
	case backend.PackFile:
		return "p"
	case backend.IndexFile:
		return "i"
	case backend.SnapshotFile:
		return "s"
	case backend.KeyFile:
		return "k"
	case backend.LockFile:
		return "l"
	case backend.ConfigFile:
		return "c"
	}
	return "x"
}

func typeName(t backend.FileType) string {
	switch t {
	case backend.PackFile:
		return "pack"
	case backend.IndexFile:
		return "index"
	case backend.SnapshotFile:
		return "snapshot"
	case backend.KeyFile:
		return "key"
	case backend.LockFile:
		return "lock"
	case backend.ConfigFile:
		return "config"
	}
	return "invalid"
}

func strs(s []string) []any {
	r := make([]any, len(s))
	for i, x := range s {
		r[i] = x
	}
	return r
}

// Project turns backend operations into abstract events. Reads are included
// only when withReads is set. Tree events ("Tree") are emitted before the
// SavePack that first contains a decodable tree blob.
func (p *Projector) Project(ops []Op, withReads bool) []Ev {
	var out []Ev
	for _, op := range ops {
		out = append(out, p.ProjectOp(op, withReads)...)
	}
	return out
}

// ProjectFile describes a stored file as if it had been saved (used for
// initial states and for damage events). ev is the event name prefix, e.g.
// "Save" gives SavePack/SaveIndex/…
func (p *Projector) ProjectFile(ev, proc string, h backend.Handle, d []byte, seq int) []Ev {
	var out []Ev
	e := Ev{"proc": proc, "seq": seq, "ok": true}
	nameOK := true
	cls := fileClass(h.Type)
	if h.Type != backend.ConfigFile {
		nameOK = sha(d) == h.Name
		e["id"] = p.Tok(cls, h.Name)
	} else {
		e["id"] = "c"
	}
	e["name_ok"] = nameOK
	e["leak"] = p.leak(d)
	e["size"] = len(d)
	switch h.Type {
	case backend.PackFile:
		e["ev"] = ev + "Pack"
		blobs, fresh, err := p.DecodePack(d, false)
		e["nonce_ok"] = fresh
		e["readable"] = err == nil
		var toks, types, oks []any
		allOK := true
		hasT, hasD := false, false
		var lens []any
		for _, b := range blobs {
			if !p.seen[b.Tok] && b.Type == "t" && b.OK {
				p.seen[b.Tok] = true
				out = append(out, Ev{"ev": "Tree", "b": b.Tok, "kids": strs(p.Kids[b.Tok])})
			}
			toks = append(toks, b.Tok)
			types = append(types, b.Type)
			oks = append(oks, b.OK)
			lens = append(lens, int(b.Length))
			p.PackLen[b.Tok+"|"+e["id"].(string)] = int(b.Length)
			if !b.OK {
				allOK = false
			}
			if b.Type == "t" {
				hasT = true
			} else {
				hasD = true
			}
		}
		if toks == nil {
			toks, types, oks, lens = []any{}, []any{}, []any{}, []any{}
		}
		e["blobs"] = toks
		e["types"] = types
		e["blob_ok"] = oks
		e["lens"] = lens
		e["blobs_ok"] = allOK
		e["mixed"] = hasT && hasD
	case backend.IndexFile:
		e["ev"] = ev + "Index"
		plain, fresh, err := p.openUnpacked(d)
		e["nonce_ok"] = fresh
		e["readable"] = err == nil
		ents := []any{}
		if err == nil {
			var ij indexJSON
			if jerr := json.Unmarshal(plain, &ij); jerr != nil {
				e["readable"] = false
			} else {
				for _, pk := range ij.Packs {
					pt := p.Tok("p", pk.ID)
					for _, b := range pk.Blobs {
						bt := p.Tok("b", b.ID)
						ty := "d"
						if b.Type == "tree" {
							ty = "t"
						}
						if _, ok := p.BlobType[bt]; !ok {
							p.BlobType[bt] = ty
						}
						ents = append(ents, []any{bt, pt})
					}
				}
			}
		}
		e["entries"] = ents
	case backend.SnapshotFile:
		e["ev"] = ev + "Snap"
		plain, fresh, err := p.openUnpacked(d)
		e["nonce_ok"] = fresh
		e["readable"] = err == nil
		e["tree"] = ""
		e["orig"] = ""
		e["parent"] = ""
		e["tags"] = []any{}
		if err == nil {
			var sj snapJSON
			if jerr := json.Unmarshal(plain, &sj); jerr != nil {
				e["readable"] = false
			} else {
				if sj.Tree != nil {
					tt := p.Tok("b", *sj.Tree)
					p.BlobType[tt] = "t"
					e["tree"] = tt
				}
				if sj.Original != nil {
					e["orig"] = p.Tok("s", *sj.Original)
				}
				if sj.Parent != nil {
					e["parent"] = p.Tok("s", *sj.Parent)
				}
				tags := append([]string(nil), sj.Tags...)
				e["tags"] = strs(tags)
				e["host"] = sj.Hostname
				e["paths"] = strs(sj.Paths)
				e["time"] = sj.Time
			}
		}
	case backend.KeyFile:
		e["ev"] = ev + "Key"
	case backend.LockFile:
		e["ev"] = ev + "Lock"
		_, fresh, err := p.openUnpacked(d)
		e["nonce_ok"] = fresh
		e["readable"] = err == nil
	case backend.ConfigFile:
		e["ev"] = ev + "Config"
		plain, fresh, err := p.openUnpacked(d)
		e["nonce_ok"] = fresh
		e["readable"] = err == nil
		e["version"] = 0
		if err == nil {
			var cj struct {
				Version int `json:"version"`
			}
			_ = json.Unmarshal(plain, &cj)
			e["version"] = cj.Version
		}
	}
	out = append(out, e)
	return out
}

// ProjectOp projects one operation.
func (p *Projector) ProjectOp(op Op, withReads bool) []Ev {
	switch op.Kind {
	case "Mark":
		var e Ev
		if err := json.Unmarshal([]byte(op.Mark), &e); err != nil {
			e = Ev{"ev": "Mark", "mark": op.Mark}
		}
		e["seq"] = op.Seq
		if _, ok := e["proc"]; !ok {
			e["proc"] = op.Proc
		}
		return []Ev{e}
	case "Save":
		effective := op.OK || op.Mark == "after-effect"
		if !effective {
			return []Ev{{"ev": "Failed", "op": "Save", "t": typeName(op.H.Type), "proc": op.Proc, "seq": op.Seq, "injected": op.Injected}}
		}
		evs := p.ProjectFile("Save", op.Proc, op.H, op.Data, op.Seq)
		evs[len(evs)-1]["ok"] = op.OK
		return evs
	case "EnvPut":
		// harness-made replacement of a file: a damaged pack keeps its id but loses blobs
		name := "Damage"
		evs := p.ProjectFile(name, "env", op.H, op.Data, op.Seq)
		return evs
	case "EnvRemove":
		e := Ev{"proc": "env", "seq": op.Seq, "ok": true}
		switch op.H.Type {
		case backend.PackFile:
			e["ev"] = "DropPack"
		case backend.IndexFile:
			e["ev"] = "DropIndex"
		case backend.SnapshotFile:
			e["ev"] = "DropSnap"
		case backend.KeyFile:
			e["ev"] = "DropKey"
		case backend.LockFile:
			e["ev"] = "RemoveLock"
		case backend.ConfigFile:
			e["ev"] = "DropConfig"
		}
		if op.H.Type == backend.ConfigFile {
			e["id"] = "c"
		} else {
			e["id"] = p.Tok(fileClass(op.H.Type), op.H.Name)
		}
		return []Ev{e}
	case "Remove":
		effective := op.OK || (op.Injected && op.Mark == "after-effect")
		if !effective {
			return []Ev{{"ev": "Failed", "op": "Remove", "t": typeName(op.H.Type), "proc": op.Proc, "seq": op.Seq, "injected": op.Injected}}
		}
		e := Ev{"proc": op.Proc, "seq": op.Seq, "ok": op.OK}
		switch op.H.Type {
		case backend.PackFile:
			e["ev"] = "RemovePack"
		case backend.IndexFile:
			e["ev"] = "RemoveIndex"
		case backend.SnapshotFile:
			e["ev"] = "RemoveSnap"
		case backend.KeyFile:
			e["ev"] = "RemoveKey"
		case backend.LockFile:
			e["ev"] = "RemoveLock"
		case backend.ConfigFile:
			e["ev"] = "RemoveConfig"
		}
		if op.H.Type == backend.ConfigFile {
			e["id"] = "c"
		} else {
			e["id"] = p.Tok(fileClass(op.H.Type), op.H.Name)
		}
		return []Ev{e}
	default:
		if !withReads {
			return nil
		}
		e := Ev{"ev": op.Kind, "t": typeName(op.H.Type), "proc": op.Proc, "seq": op.Seq, "ok": op.OK}
		if op.Kind != "List" && op.H.Type != backend.ConfigFile {
			e["id"] = p.Tok(fileClass(op.H.Type), op.H.Name)
		} else {
			e["id"] = ""
		}
		return []Ev{e}
	}
}

// InitEvents describes a whole file map as "Init…" events (state the trace starts from).
func (p *Projector) InitEvents(files map[backend.Handle][]byte) []Ev {
	var hs []backend.Handle
	for h := range files {
		hs = append(hs, h)
	}
	// packs first so that trees are known, then index, snapshots, rest
	order := map[backend.FileType]int{backend.KeyFile: 0, backend.ConfigFile: 1, backend.PackFile: 2, backend.IndexFile: 3, backend.SnapshotFile: 4, backend.LockFile: 5}
	sort.Slice(hs, func(i, j int) bool {
		if order[hs[i].Type] != order[hs[j].Type] {
			return order[hs[i].Type] < order[hs[j].Type]
		}
		return hs[i].Name < hs[j].Name
	})
	var out []Ev
	for _, h := range hs {
		out = append(out, p.ProjectFile("Init", "env", h, files[h], 0)...)
	}
	return out
}
