package verifkit

// String enumeration helpers for parser drivers (C49).

import (
	"math/big"
	"strings"
)

// EnumStrings calls fn for every string of length 0..maxLen over the characters of alpha,
// in a fixed order (shorter first).
func EnumStrings(alpha string, maxLen int, fn func(s string)) {
	chars := strings.Split(alpha, "")
	var rec func(prefix string, left int)
	fn("")
	for l := 1; l <= maxLen; l++ {
		rec = func(prefix string, left int) {
			if left == 0 {
				fn(prefix)
				return
			}
			for _, c := range chars {
				rec(prefix+c, left-1)
			}
		}
		rec("", l)
	}
}

// BoundaryNumbers returns decimal literals around 2^31, 2^32, 2^53, 2^63, 2^64 and long digit strings
// (20..40 digits), also with leading zeros.
func BoundaryNumbers() []string {
	var out []string
	add := func(b *big.Int) {
		for d := int64(-2); d <= 2; d++ {
			out = append(out, new(big.Int).Add(b, big.NewInt(d)).String())
		}
	}
	for _, e := range []uint{8, 15, 16, 23, 31, 32, 33, 43, 53, 62, 63, 64, 65} {
		add(new(big.Int).Lsh(big.NewInt(1), e))
	}
	out = append(out, "0", "00", "1", "007", "0000000000000000000000001", "00009223372036854775807", "00009223372036854775808",
		"99999999999999999999", "100000000000000000000", "18446744073709551615", "18446744073709551616",
		"123456789012345678901234567890", "9999999999999999999999999999999999999999", "1"+strings.Repeat("0", 39))
	return out
}

// Quotients returns v/2^0, v/2^10, v/2^20, v/2^30, v/2^40 as decimal strings ("" where v is not divisible).
func Quotients(v int64) []string {
	out := make([]string, 5)
	b := big.NewInt(v)
	for i := 0; i < 5; i++ {
		d := new(big.Int).Lsh(big.NewInt(1), uint(10*i))
		q, r := new(big.Int).QuoRem(b, d, new(big.Int))
		if r.Sign() == 0 {
			out[i] = q.String()
		}
	}
	return out
}
