// Package verifkit is the Go side of the /verif machinery. It is NOT part of
// restic: the check driver injects it with `go test -overlay` as
// internal/verifkit. It must not import internal/repository (in-package
// harness tests of that package import this one).
package verifkit

import (
	"bytes"
	"context"
	"errors"
	"fmt"
	"hash"
	"io"
	"net/http"
	"sort"
	"sync"

	"github.com/restic/restic/internal/backend"
	"github.com/restic/restic/internal/backend/location"
	"github.com/restic/restic/internal/backend/mem"
)

// Op is one backend operation as linearized by the Store (Seq is assigned
// under the store mutex, after the inner operation returned).
type Op struct {
	Seq      int
	Mut      int // 1-based index among successful+failed mutating ops (Save/Remove), 0 for reads
	Proc     string
	Kind     string // Save Remove Load List Stat
	H        backend.Handle
	OK       bool
	Err      string
	Data     []byte // Save only
	Off      int64
	Len      int
	Injected bool // error was injected by the fault plan
	Mark     string
}

// ErrInjected is returned for injected faults. It is reported as permanent so
// that the retry layer does not spin.
var ErrInjected = errors.New("verif: injected backend fault")

// ErrDead is returned for every operation after the store was killed.
var ErrDead = errors.New("verif: process is dead (simulated crash)")

// FaultFn decides, before a mutating operation is executed, whether it fails.
// mut is the 1-based index of this mutating operation. Return nil to let it
// pass. If afterEffect is true the operation is executed and the error is
// returned nevertheless.
type FaultFn func(mut int, kind string, h backend.Handle) (err error, afterEffect bool)

// Store is a shared in-memory repository storage with an operation log.
type Store struct {
	mu     sync.Mutex
	inner  *mem.MemoryBackend
	ops    []Op
	mut    int
	Fault  FaultFn
	dead   bool
	DieAt  int // if > 0: after DieAt mutating ops all further ops fail with ErrDead
	OnDead func()
	NoAtomicReplace bool
	// AtomicReplace makes the store behave like a backend whose Save atomically replaces an existing config file
	AtomicReplace bool
	// Gate, if set, is called (without the store mutex) before every operation
	Gate func(proc, kind string, h backend.Handle)
	// ReadFault, if set, may alter the outcome of a Load
	ReadFault func(proc string, h backend.Handle, length int, off int64, data []byte) ([]byte, error)
	Conns uint
	// AfterMut, if set, is called (without the store mutex) after every mutating operation
	AfterMut func(mut int, kind string, h backend.Handle, ok bool)
}

// NewStore creates an empty store.
func NewStore() *Store {
	return &Store{inner: mem.New()}
}

// NewStoreFrom creates a store holding the given files.
func NewStoreFrom(files map[backend.Handle][]byte) *Store {
	s := NewStore()
	for h, d := range files {
		if err := s.inner.Save(context.Background(), h, backend.NewByteReader(d, s.inner.Hasher())); err != nil {
			panic(err)
		}
	}
	return s
}

func normHandle(h backend.Handle) backend.Handle {
	h.IsMetadata = false
	if h.Type == backend.ConfigFile {
		h.Name = ""
	}
	return h
}

// Ops returns a copy of the operation log.
func (s *Store) Ops() []Op {
	s.mu.Lock()
	defer s.mu.Unlock()
	return append([]Op(nil), s.ops...)
}

// NumOps returns the current length of the operation log.
func (s *Store) NumOps() int {
	s.mu.Lock()
	defer s.mu.Unlock()
	return len(s.ops)
}

// NumMut returns the number of mutating operations seen so far.
func (s *Store) NumMut() int {
	s.mu.Lock()
	defer s.mu.Unlock()
	return s.mut
}

// Mark appends a marker pseudo operation (command brackets etc).
func (s *Store) Mark(proc, mark string) {
	s.mu.Lock()
	defer s.mu.Unlock()
	s.ops = append(s.ops, Op{Seq: len(s.ops) + 1, Proc: proc, Kind: "Mark", Mark: mark, OK: true})
}

// Revive clears the dead flag and fault plan (a new process starts).
func (s *Store) Revive() {
	s.mu.Lock()
	defer s.mu.Unlock()
	s.dead = false
	s.DieAt = 0
	s.Fault = nil
	s.OnDead = nil
	s.AfterMut = nil
	s.mut = 0
}

// Files returns a copy of the current content.
func (s *Store) Files() map[backend.Handle][]byte {
	res := map[backend.Handle][]byte{}
	ctx := context.Background()
	for _, t := range []backend.FileType{backend.PackFile, backend.KeyFile, backend.LockFile, backend.SnapshotFile, backend.IndexFile, backend.ConfigFile} {
		_ = s.inner.List(ctx, t, func(fi backend.FileInfo) error {
			h := backend.Handle{Type: t, Name: fi.Name}
			if t == backend.ConfigFile {
				h.Name = ""
			}
			var buf []byte
			_ = s.inner.Load(ctx, h, 0, 0, func(rd io.Reader) error {
				var err error
				buf, err = io.ReadAll(rd)
				return err
			})
			res[normHandle(h)] = buf
			return nil
		})
	}
	return res
}

// StateAt replays the op log up to and including sequence number seq on top
// of base and returns the file map. This is the storage a crash right after
// operation seq would leave behind (the mem backend is atomic per operation).
func StateAt(base map[backend.Handle][]byte, ops []Op, seq int) map[backend.Handle][]byte {
	res := map[backend.Handle][]byte{}
	for h, d := range base {
		res[h] = d
	}
	for _, op := range ops {
		if op.Seq > seq {
			break
		}
		if !op.OK && !(op.Data != nil && op.Kind == "Save" && op.Mark == "after-effect") {
			if !(op.Injected && op.Kind == "Remove" && op.Mark == "after-effect") {
				continue
			}
		}
		switch op.Kind {
		case "Save", "EnvPut":
			res[normHandle(op.H)] = op.Data
		case "Remove", "EnvRemove":
			delete(res, normHandle(op.H))
		}
	}
	return res
}

// Raw gives direct, unlogged access to the inner backend (for harness-made
// damage and for inspection).
func (s *Store) Raw() *mem.MemoryBackend { return s.inner }

// Put stores a file directly (unlogged, replaces silently).
func (s *Store) Put(h backend.Handle, data []byte) {
	ctx := context.Background()
	_ = s.inner.Remove(ctx, h)
	if err := s.inner.Save(ctx, h, backend.NewByteReader(data, s.inner.Hasher())); err != nil {
		panic(err)
	}
}

// Del removes a file directly (unlogged).
func (s *Store) Del(h backend.Handle) {
	_ = s.inner.Remove(context.Background(), h)
}

// EnvRemove removes a file on behalf of the environment (harness-made damage); it is logged as an
// "EnvRemove" operation which the projector turns into a Drop* event (exempt from ordering rules).
func (s *Store) EnvRemove(h backend.Handle) {
	s.mu.Lock()
	defer s.mu.Unlock()
	_ = s.inner.Remove(context.Background(), h)
	s.ops = append(s.ops, Op{Seq: len(s.ops) + 1, Proc: "env", Kind: "EnvRemove", H: h, OK: true})
}

// EnvPut stores (replaces) a file on behalf of the environment; logged as "EnvPut" (Damage*/Init* event).
func (s *Store) EnvPut(h backend.Handle, data []byte) {
	s.mu.Lock()
	defer s.mu.Unlock()
	ctx := context.Background()
	_ = s.inner.Remove(ctx, h)
	if err := s.inner.Save(ctx, h, backend.NewByteReader(data, s.inner.Hasher())); err != nil {
		panic(err)
	}
	s.ops = append(s.ops, Op{Seq: len(s.ops) + 1, Proc: "env", Kind: "EnvPut", H: h, OK: true, Data: data})
}

// Get reads a file directly (unlogged).
func (s *Store) Get(h backend.Handle) ([]byte, bool) {
	var buf []byte
	err := s.inner.Load(context.Background(), h, 0, 0, func(rd io.Reader) error {
		var err error
		buf, err = io.ReadAll(rd)
		return err
	})
	return buf, err == nil
}

// Names lists the names of all files of a type, sorted.
func (s *Store) Names(t backend.FileType) []string {
	var res []string
	_ = s.inner.List(context.Background(), t, func(fi backend.FileInfo) error {
		res = append(res, fi.Name)
		return nil
	})
	sort.Strings(res)
	return res
}

// Backend returns a tracing view of the store for process proc.
func (s *Store) Backend(proc string) backend.Backend {
	return &tbe{s: s, proc: proc, inner: s.inner}
}

// Wrap returns a tracing wrapper around an arbitrary inner backend (which
// must ultimately store into s.inner for StateAt/Files to be meaningful).
func (s *Store) Wrap(proc string, inner backend.Backend) backend.Backend {
	return &tbe{s: s, proc: proc, inner: inner}
}

// Factory returns a location factory under scheme `scheme`, opening always this store. Every
// Open/Create yields a view for the process name currently set with SetProc.
func (s *Store) Factory(scheme string, proc *string) location.Factory {
	return location.NewHTTPBackendFactory[struct{}, backend.Backend](
		scheme,
		func(_ string) (*struct{}, error) { return &struct{}{}, nil },
		location.NoPassword,
		func(_ context.Context, _ struct{}, _ http.RoundTripper, _ func(string, ...any)) (backend.Backend, error) {
			return s.Backend(*proc), nil
		},
		func(_ context.Context, _ struct{}, _ http.RoundTripper, _ func(string, ...any)) (backend.Backend, error) {
			return s.Backend(*proc), nil
		},
	)
}

type tbe struct {
	s     *Store
	proc  string
	inner backend.Backend
}

var _ backend.Backend = &tbe{}

func (b *tbe) Properties() backend.Properties {
	p := b.inner.Properties()
	if b.s.NoAtomicReplace {
		p.HasAtomicReplace = false
	}
	if b.s.AtomicReplace {
		p.HasAtomicReplace = true
	}
	if b.s.Conns != 0 {
		p.Connections = b.s.Conns
	}
	return p
}
func (b *tbe) Hasher() hash.Hash             { return b.inner.Hasher() }
func (b *tbe) Close() error                  { return nil }
func (b *tbe) IsNotExist(err error) bool     { return b.inner.IsNotExist(err) }
func (b *tbe) Unwrap() backend.Backend       { return b.inner }
func (b *tbe) IsPermanentError(err error) bool {
	return errors.Is(err, ErrInjected) || errors.Is(err, ErrDead) || b.inner.IsPermanentError(err)
}
func (b *tbe) Delete(ctx context.Context) error { return b.inner.Delete(ctx) }
func (b *tbe) Warmup(ctx context.Context, h []backend.Handle) ([]backend.Handle, error) {
	return b.inner.Warmup(ctx, h)
}
func (b *tbe) WarmupWait(ctx context.Context, h []backend.Handle) error {
	return b.inner.WarmupWait(ctx, h)
}

func errStr(err error) string {
	if err == nil {
		return ""
	}
	return err.Error()
}

// mutating runs one mutating op under the store mutex.
func (b *tbe) mutating(kind string, h backend.Handle, data []byte, do func() error) error {
	s := b.s
	if s.Gate != nil {
		s.Gate(b.proc, kind, h)
	}
	s.mu.Lock()
	if s.dead {
		s.mu.Unlock()
		return ErrDead
	}
	s.mut++
	mut := s.mut
	var ferr error
	after := false
	if s.Fault != nil {
		ferr, after = s.Fault(mut, kind, h)
	}
	var err error
	op := Op{Proc: b.proc, Kind: kind, H: h, Data: data, Mut: mut}
	if ferr != nil && !after {
		err = ferr
		op.Injected = true
	} else {
		existed := false
		if kind == "Save" {
			_, serr := b.inner.Stat(context.Background(), h)
			existed = serr == nil
		}
		err = do()
		if err != nil && kind == "Save" && !existed {
			// a backend may store the file and still report an error (the mem backend returns ctx.Err() after
			// storing, real backends lose the reply): the operation took effect
			if _, serr := b.inner.Stat(context.Background(), h); serr == nil {
				op.Mark = "after-effect"
			}
		}
		if err == nil && ferr != nil {
			err = ferr
			op.Injected = true
			op.Mark = "after-effect"
		}
	}
	op.OK = err == nil
	op.Err = errStr(err)
	op.Seq = len(s.ops) + 1
	s.ops = append(s.ops, op)
	var onDead func()
	if s.DieAt > 0 && mut >= s.DieAt {
		s.dead = true
		onDead = s.OnDead
	}
	afterFn := s.AfterMut
	s.mu.Unlock()
	if onDead != nil {
		onDead()
	}
	if afterFn != nil {
		afterFn(mut, kind, h, err == nil)
	}
	return err
}

func (b *tbe) Save(ctx context.Context, h backend.Handle, rd backend.RewindReader) error {
	data, err := io.ReadAll(rd)
	if err != nil {
		return err
	}
	if err := rd.Rewind(); err != nil {
		return err
	}
	return b.mutating("Save", h, data, func() error {
		if b.s.AtomicReplace && h.Type == backend.ConfigFile {
			// a backend with atomic replace overwrites the existing file in one step
			_ = b.inner.Remove(ctx, normHandle(h))
		}
		if rd.Hash() == nil && b.inner.Hasher() != nil {
			// callers may legitimately pass a reader without content hash (real backends then send
			// none); the mem backend insists on one, so supply it here instead of failing
			return b.inner.Save(ctx, h, backend.NewByteReader(data, b.inner.Hasher()))
		}
		return b.inner.Save(ctx, h, rd)
	})
}

func (b *tbe) Remove(ctx context.Context, h backend.Handle) error {
	return b.mutating("Remove", h, nil, func() error {
		return b.inner.Remove(ctx, h)
	})
}

func (b *tbe) read(kind string, h backend.Handle, off int64, length int, do func() error) error {
	s := b.s
	if s.Gate != nil {
		s.Gate(b.proc, kind, h)
	}
	s.mu.Lock()
	if s.dead {
		s.mu.Unlock()
		return ErrDead
	}
	s.mu.Unlock()
	err := do()
	s.mu.Lock()
	s.ops = append(s.ops, Op{Seq: len(s.ops) + 1, Proc: b.proc, Kind: kind, H: h, OK: err == nil, Err: errStr(err), Off: off, Len: length})
	s.mu.Unlock()
	return err
}

func (b *tbe) Load(ctx context.Context, h backend.Handle, length int, offset int64, fn func(rd io.Reader) error) error {
	return b.read("Load", h, offset, length, func() error {
		if b.s.ReadFault == nil {
			return b.inner.Load(ctx, h, length, offset, fn)
		}
		var buf []byte
		err := b.inner.Load(ctx, h, length, offset, func(rd io.Reader) error {
			var err error
			buf, err = io.ReadAll(rd)
			return err
		})
		if err != nil {
			return err
		}
		buf, err = b.s.ReadFault(b.proc, h, length, offset, buf)
		if err != nil {
			return err
		}
		return fn(bytes.NewReader(buf))
	})
}

func (b *tbe) Stat(ctx context.Context, h backend.Handle) (backend.FileInfo, error) {
	var fi backend.FileInfo
	err := b.read("Stat", h, 0, 0, func() error {
		var err error
		fi, err = b.inner.Stat(ctx, h)
		return err
	})
	return fi, err
}

func (b *tbe) List(ctx context.Context, t backend.FileType, fn func(backend.FileInfo) error) error {
	// the listing is a snapshot taken at this point; the callbacks run later
	var fis []backend.FileInfo
	err := b.read("List", backend.Handle{Type: t}, 0, 0, func() error {
		return b.inner.List(ctx, t, func(fi backend.FileInfo) error {
			fis = append(fis, fi)
			return nil
		})
	})
	if err != nil {
		return err
	}
	for _, fi := range fis {
		if ctx.Err() != nil {
			return ctx.Err()
		}
		if err := fn(fi); err != nil {
			return err
		}
	}
	return nil
}

// FailAt returns a FaultFn failing exactly the k-th mutating operation.
func FailAt(k int, afterEffect bool) FaultFn {
	return func(mut int, kind string, h backend.Handle) (error, bool) {
		if mut == k {
			return fmt.Errorf("%w (op %d %s %v)", ErrInjected, mut, kind, h), afterEffect
		}
		return nil, false
	}
}
