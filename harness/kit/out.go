package verifkit

import (
	"bufio"
	"encoding/json"
	"fmt"
	"math/rand"
	"os"
	"path/filepath"
	"strconv"
	"sync"
)

// Seed returns VERIF_SEED (default 1).
func Seed() int64 {
	if s := os.Getenv("VERIF_SEED"); s != "" {
		if v, err := strconv.ParseInt(s, 10, 64); err == nil {
			return v
		}
	}
	return 1
}

// Thorough reports whether VERIF_TIER=thorough.
func Thorough() bool { return os.Getenv("VERIF_TIER") == "thorough" }

// Pick returns q for the quick tier and t for the thorough tier.
func Pick(q, t int) int {
	if Thorough() {
		return t
	}
	return q
}

// Rand returns a PRNG seeded from VERIF_SEED and a per-use salt.
func Rand(salt int64) *rand.Rand {
	return rand.New(rand.NewSource(Seed()*1000003 + salt))
}

// OutDir returns VERIF_OUT (must be set by the driver).
func OutDir() string {
	d := os.Getenv("VERIF_OUT")
	if d == "" {
		d = filepath.Join(os.TempDir(), "verif-out")
	}
	_ = os.MkdirAll(d, 0o755)
	return d
}

// Replay returns the path given with VERIF_REPLAY ("" if none).
func Replay() string { return os.Getenv("VERIF_REPLAY") }

// NDJSON is a concurrency-safe ndjson file writer.
type NDJSON struct {
	mu sync.Mutex
	f  *os.File
	w  *bufio.Writer
	n  int
}

// NewNDJSON creates (truncates) file name inside OutDir.
func NewNDJSON(name string) *NDJSON {
	f, err := os.Create(filepath.Join(OutDir(), name))
	if err != nil {
		panic(err)
	}
	return &NDJSON{f: f, w: bufio.NewWriterSize(f, 1<<20)}
}

// Write appends one record.
func (n *NDJSON) Write(v any) {
	b, err := json.Marshal(v)
	if err != nil {
		panic(err)
	}
	n.mu.Lock()
	defer n.mu.Unlock()
	_, _ = n.w.Write(b)
	_ = n.w.WriteByte('\n')
	n.n++
}

// Count returns the number of records written.
func (n *NDJSON) Count() int {
	n.mu.Lock()
	defer n.mu.Unlock()
	return n.n
}

// Close flushes and closes.
func (n *NDJSON) Close() {
	n.mu.Lock()
	defer n.mu.Unlock()
	_ = n.w.Flush()
	_ = n.f.Close()
}

// WriteJSON writes v as JSON to OutDir/name.
func WriteJSON(name string, v any) {
	b, err := json.MarshalIndent(v, "", " ")
	if err != nil {
		panic(err)
	}
	if err := os.WriteFile(filepath.Join(OutDir(), name), b, 0o644); err != nil {
		panic(err)
	}
}

// Result is the summary a harness test leaves for the driver.
type Result struct {
	mu sync.Mutex
	// Evaluations counts executed cases.
	Evaluations int `json:"evaluations"`
	// Distinct counts distinct non-trivial cases (by the rule stated in Rule).
	Distinct int            `json:"distinct_nontrivial"`
	Rule     string         `json:"rule"`
	Samples  []any          `json:"samples"`
	Counters map[string]int `json:"counters"`
	// Violations confirmed against the real code by the harness itself.
	Violations []Violation `json:"violations"`
	// Problems are harness problems (not violations): the driver exits 2.
	Problems []string `json:"problems"`
	distinct map[string]bool
}

// Violation is a confirmed failure of the property in the real code.
type Violation struct {
	Key    string `json:"key"`    // stable key (call site + failing input class), matched against known findings
	Detail string `json:"detail"` // human readable
	Case   any    `json:"case"`   // enough to replay
}

// NewResult creates a result with a rule text.
func NewResult(rule string) *Result {
	return &Result{Rule: rule, Counters: map[string]int{}, distinct: map[string]bool{}, Samples: []any{}, Violations: []Violation{}, Problems: []string{}}
}

// Case records one evaluated case; key identifies it for distinctness; nontrivial says whether it counts.
func (r *Result) Case(key string, nontrivial bool) {
	r.mu.Lock()
	defer r.mu.Unlock()
	r.Evaluations++
	if nontrivial && !r.distinct[key] {
		r.distinct[key] = true
		r.Distinct++
	}
}

// Sample keeps up to 5 samples.
func (r *Result) Sample(v any) {
	r.mu.Lock()
	defer r.mu.Unlock()
	if len(r.Samples) < 5 {
		r.Samples = append(r.Samples, v)
	}
}

// Count increments a named counter.
func (r *Result) Count(name string, d int) {
	r.mu.Lock()
	defer r.mu.Unlock()
	r.Counters[name] += d
}

// Violate records a confirmed violation (at most 50 are kept).
func (r *Result) Violate(key, detail string, c any) {
	r.mu.Lock()
	defer r.mu.Unlock()
	if len(r.Violations) < 50 {
		r.Violations = append(r.Violations, Violation{Key: key, Detail: detail, Case: c})
	}
}

// Problem records a harness problem.
func (r *Result) Problem(format string, args ...any) {
	r.mu.Lock()
	defer r.mu.Unlock()
	if len(r.Problems) < 50 {
		r.Problems = append(r.Problems, fmt.Sprintf(format, args...))
	}
}

// Save writes the result as result.json (or the given name).
func (r *Result) Save(name string) {
	r.mu.Lock()
	defer r.mu.Unlock()
	if name == "" {
		name = "result.json"
	}
	WriteJSON(name, r)
}
